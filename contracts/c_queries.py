"""Sidecar contracts for the queries of C15: find (exact / substring), getNonEntries."""
from pyvc.contracts import contract
from contracts.c_tiers import wf_interval_tier, wf_point_tier, IT, PT

TT = "praatio.data_classes.textgrid_tier.TextgridTier"


def any_tier(S, cfg, name="self"):
    return wf_interval_tier(S, name) if cfg["tier"] == "interval" else wf_point_tier(S, name)


# usingRE=True (re.findall) is outside the engine's string model: decided by the bounded check c15_queries
contract(TT + ".find", serves=["C15", "C13"], spec_module="spec.queries",
         configs={"tier": ["interval", "point"], "substrMatchFlag": [False, True]},
         inputs=lambda S, cfg: dict(self=any_tier(S, cfg), matchLabel=S.str("matchLabel"),
                                    substrMatchFlag=cfg["substrMatchFlag"], usingRE=False),
         spec="spec.queries.find", frame=["self"])

# "on a tier with entries" is part of the property statement; 0 <= minTimestamp is the class invariant of a
# tier built from non-negative times
contract(IT + ".getNonEntries", serves=["C15", "C13"], spec_module="spec.queries",
         inputs=lambda S, cfg: dict(self=wf_interval_tier(S, "self")),
         requires=["len(self._entries) > 0", "0 <= self.minTimestamp"],
         spec="spec.queries.getNonEntries", frame=["self"], engine_opts={"touch": True, "successor": True},
         ensures=[("positive-length", "forall(result, lambda g: g.start < g.end and g.label == '')"),
                  ("in-span", "forall(result, lambda g: 0 <= g.start and g.end <= self.maxTimestamp)"),
                  ("ordered", "adjacent(result, lambda a, b: a.end <= b.start)")])

# ---- validate(): non-raising modes.  The loop carries `previous...` (closed form: the preceding entry) and the flag
# `isValid` (flag rule of pyvc/loops.py: False after the loop iff some iteration takes a path that sets it).
# reportingMode='error' raises at the first problem found, with a class that depends on the order of the checks: not
# part of the property ("returns False exactly when ...") and left to the bounded check.


def any_interval_tier(S, name="self"):
    """NOT assumed well-formed: validate() is what decides that"""
    ents = S.list(name + ".entries", "Interval")
    return S.obj(IT, name=S.str(name + ".name"), _entries=ents, minTimestamp=S.real(name + ".min"),
                 maxTimestamp=S.real(name + ".max"),
                 errorReporter=S.I.get_function("praatio.utilities.utils.reportWarning"))


def any_point_tier(S, name="self"):
    ents = S.list(name + ".entries", "Point")
    return S.obj(PT, name=S.str(name + ".name"), _entries=ents, minTimestamp=S.real(name + ".min"),
                 maxTimestamp=S.real(name + ".max"),
                 errorReporter=S.I.get_function("praatio.utilities.utils.reportWarning"))


contract(IT + ".validate", serves=["C15", "C05", "C13"], spec_module="spec.queries",
         configs={"reportingMode": ["silence", "warning", "bogus"]},
         inputs=lambda S, cfg: dict(self=any_interval_tier(S), reportingMode=cfg["reportingMode"]),
         loops={"loop#1": {"carried": {"previousInterval": "(self.entries[j - 1] if j > 0 else None)"}}},
         spec="spec.queries.IntervalTier_validate", frame=["self"], engine_opts={"touch": True, "successor": True})

contract(PT + ".validate", serves=["C15", "C05", "C13"], spec_module="spec.queries",
         configs={"reportingMode": ["silence", "warning", "bogus"]},
         inputs=lambda S, cfg: dict(self=any_point_tier(S), reportingMode=cfg["reportingMode"]),
         loops={"loop#1": {"carried": {"previousPoint": "(self.entries[j - 1] if j > 0 else None)"}}},
         spec="spec.queries.PointTier_validate", frame=["self"], engine_opts={"touch": True, "successor": True})

# ---- timestamps: the strictly sorted set of all boundary times.  list(set(xs)) is the Dedup term of pyvc/core.py
# (distinct values of xs in unspecified order); the two inclusions are proof-only (`subset`): if they stop being
# provable the obligation is *unsupported*, and the native differential check decides
contract(PT + ".timestamps", serves=["C15", "C13"], spec_module="spec.queries",
         inputs=lambda S, cfg: dict(self=wf_point_tier(S, "self")),
         frame=["self"], engine_opts={"sorted_forward": True},
         ensures=[("strictly-sorted", "adjacent(result, lambda a, b: a < b)"),
                  ("only-boundaries", "subset(result, point_times(self))"),
                  ("all-boundaries", "subset(point_times(self), result)")])
contract(IT + ".timestamps", serves=["C15", "C13"], spec_module="spec.queries",
         inputs=lambda S, cfg: dict(self=wf_interval_tier(S, "self")),
         frame=["self"], engine_opts={"sorted_forward": True},
         ensures=[("strictly-sorted", "adjacent(result, lambda a, b: a < b)"),
                  ("only-boundaries", "subset(result, interval_boundaries(self))"),
                  ("all-boundaries", "subset(interval_boundaries(self), result)")])

# ---- invertIntervalList (C15, C17): complement of a sorted, disjoint interval list within bounds.  The loop over
# range(len - 1) of the list that got sentinel head / tail elements inserted is split at its end indices (peel rule,
# pyvc/listops.py: flatMap_range_succ / flatMap_range_succ_last in lean/Lifting.lean)
U = "praatio.utilities.utils."
contract(U + "invertIntervalList", serves=["C15", "C17"], spec_module="spec.queries",
         configs={"minValue": [None, "sym"], "maxValue": [None, "sym"]},
         inputs=lambda S, cfg: dict(inputList=S.list("inputList", "pair", pair="a[1] <= b[0]"),
                                    minValue=None if cfg["minValue"] is None else S.real("minValue"),
                                    maxValue=None if cfg["maxValue"] is None else S.real("maxValue")),
         requires=["len(inputList) > 0 or (minValue is not None and maxValue is not None)",
                   "minValue is None or len(inputList) == 0 or minValue <= inputList[0][0]",
                   "maxValue is None or len(inputList) == 0 or inputList[-1][1] <= maxValue",
                   "minValue is None or maxValue is None or minValue < maxValue"],
         spec="spec.queries.invertIntervalList", frame=["inputList"],
         engine_opts={"touch": True, "successor": True},
         ensures=[("positive-length", "forall(result, lambda g: g[0] < g[1])"),
                  ("ordered", "adjacent(result, lambda a, b: a[1] <= b[0])")])


# ---- C17: the keep / delete partition (invertIntervalList's spec stands in at the two call sites)
def kd_list(S, name, present):
    if present is None:
        return None
    if present == "empty":
        return S.pylist([])
    return S.list(name, "pair", all="e[0] < e[1]", pair="a[1] <= b[0]")


KD = ["len(%s) == 0 or (start <= %s[0][0] and %s[-1][1] <= stop)" % (n, n, n) for n in ("keepIntervals", "deleteIntervals")]
contract("praatio.audio._computeKeepDeleteIntervals", serves=["C17"], spec_module="spec.queries",
         configs={"keep": [None, "empty", "sym"], "delete": [None, "empty", "sym"]},
         inputs=lambda S, cfg: dict(start=S.real("start"), stop=S.real("stop"),
                                    keepIntervals=kd_list(S, "keepIntervals", cfg["keep"]),
                                    deleteIntervals=kd_list(S, "deleteIntervals", cfg["delete"])),
         requires=["start < stop"] + ["%s is None or %s" % (n, r) for n, r in zip(("keepIntervals", "deleteIntervals"), KD)],
         spec="spec.queries.computeKeepDeleteIntervals", frame=["keepIntervals", "deleteIntervals"],
         engine_opts={"touch": True, "successor": True, "sorted_forward": True, "pair_forward": True},
         ensures=[("positive-length", "forall(result, lambda g: g[0] < g[1])"),
                  ("within", "forall(result, lambda g: start <= g[0] and g[1] <= stop)"),
                  # that consecutive stretches share their boundary (the labelled stretches tile [start, stop]) is a
                  # statement about the sorted merge of two interleaved lists: not derivable by the engine, checked
                  # bounded by c17_extraction
                  ("from-start", "result[0][0] == start"), ("to-stop", "result[-1][1] == stop")])
