#!/bin/sh
# offline setup: nothing to build; verify the tools the checks need are importable
set -e
cd "$(dirname "$0")"
mkdir -p out/replay evidence
python3-vt -c "import z3, sys; print('z3', z3.get_version_string())"
PYTHONPATH=/repo python3-vt -c "import praatio; print('praatio importable under python3-vt')"
echo setup ok
