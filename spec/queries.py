"""Specification functions for the queries of C15, written from the property statement.

Only the spec-language subset may be used here: expressions, if/return, comprehensions."""
from praatio.utilities.constants import Interval, Point
from praatio.utilities import errors
from spec.prims import forall, exists, pairwise, adjacent, strip, is_sorted
from spec.tiers import valid, disjoint_ordered, in_span_i, in_span_p


def find(self, matchLabel, substrMatchFlag=False, usingRE=False):
    """exactly the indices of the entries whose label equals / contains the query"""
    es = self._entries
    if substrMatchFlag:
        return [i for i in range(len(es)) if matchLabel in es[i].label]
    return [i for i in range(len(es)) if es[i].label == matchLabel]


def gaps(es):
    """the positive-length stretches between consecutive entries"""
    return [Interval(es[i].end, es[i + 1].start, "") for i in range(len(es) - 1) if es[i].end < es[i + 1].start]


def getNonEntries(self):
    """the unlabelled stretches of [0, maxTimestamp], in time order (tier with at least one entry)"""
    es = self._entries
    head = [Interval(0, es[0].start, "")] if es[0].start > 0 else []
    tail = [Interval(es[-1].end, self.maxTimestamp, "")] if es[-1].end < self.maxTimestamp else []
    return head + gaps(es) + tail
