"""Shared domain / model / harness for b_textgrid_io.py (C01-C04).

Nothing in here looks at praatIO's implementation: the *model* functions are written from the property
statements (properties.jsonl C01-C04) and the file formats come from spec/tgformat.py.
"""
import json
import multiprocessing
import os
import random
import shutil
import time

from spec import tgformat as S

ROOT = os.path.dirname(os.path.dirname(os.path.abspath(__file__)))
TMPROOT = os.path.join(ROOT, "out", "tmp")

KEYWORDS = ['item [2]:', 'intervals [1]:', '"IntervalTier"', 'text = "x"', 'ooTextFile short']
LABEL_ATOMS = ['a', '"', '""', '\n', ' ', '=', '7'] + KEYWORDS
NAME_ATOMS = ['a', '"', '""', ' ', '=', '7'] + KEYWORDS
UNICODE_ATOMS = ['é', '語', '\U0001d11e']
NUMS = sorted([0.0, 1e-17, 5e-05, 0.1 + 0.2, 1 / 3, 3.0000000000000004, 2.5, 123456789.12345678, 1e15])
FORMATS = S.FORMATS
DEFAULT_THRESHOLD = 1e-8      # documented default of save(minimumIntervalLength=...)


# ------------------------------------------------------------------------------------------------
# case data ("cd"): like spec content but names / labels are lists of atoms
# ------------------------------------------------------------------------------------------------


def mk_name(atoms):
    s = "".join(atoms).strip()
    return s if s else "a"


def mk_label(atoms):
    return "".join(atoms).strip()


def materialise(cd):
    tiers = []
    for t in cd["tiers"]:
        ents = [tuple(e[:-1]) + (mk_label(e[-1]),) for e in t["entries"]]
        tiers.append({"class": t["class"], "name": mk_name(t["name"]), "xmin": t["xmin"], "xmax": t["xmax"],
                      "entries": ents})
    return {"xmin": cd["xmin"], "xmax": cd["xmax"], "tiers": tiers}


def cd_size(cd):
    return len(json.dumps(cd))


def all_labels(maxlen, atoms=LABEL_ATOMS):
    """all atom lists up to maxlen, deduplicated on the resulting (stripped) label"""
    out, seen = [], set()
    level = [[]]
    for n in range(maxlen + 1):
        for lab in level:
            k = mk_label(lab)
            if k not in seen:
                seen.add(k)
                out.append(lab)
        level = [lab + [a] for lab in level for a in atoms]
    return out


def all_names(maxlen):
    out, seen = [], set()
    level = [[a] for a in NAME_ATOMS]
    for n in range(1, maxlen + 1):
        for nm in level:
            k = mk_name(nm)
            if k not in seen and "".join(nm).strip():
                seen.add(k)
                out.append(nm)
        level = [nm + [a] for nm in level for a in NAME_ATOMS]
    return out


def rand_label(rng, maxlen=3, atoms=LABEL_ATOMS, p_empty=0.12):
    if rng.random() < p_empty:
        return []
    return [rng.choice(atoms) for _ in range(rng.randint(1, maxlen))]


def rand_name(rng, maxlen=2):
    while True:
        nm = [rng.choice(NAME_ATOMS) for _ in range(rng.randint(1, maxlen))]
        if "".join(nm).strip():
            return nm


def gen_cd(rng, nums=NUMS, max_tiers=2, max_entries=2, label_atoms=LABEL_ATOMS, unique_names=True,
           p_same_span=0.7):
    """random textgrid of the C01 domain"""
    ntiers = rng.randint(1, max_tiers)
    i_lo = rng.randrange(0, len(nums) - 1)
    i_hi = rng.randrange(i_lo + 1, len(nums))
    same = rng.random() < p_same_span
    tiers = []
    for _ in range(ntiers):
        if same:
            a, b = i_lo, i_hi
        else:
            a = rng.randrange(i_lo, i_hi)
            b = rng.randrange(a + 1, i_hi + 1)
        klass = rng.choice([S.INTERVAL, S.POINT])
        k = rng.randint(0, max_entries)
        grid = nums[a:b + 1]
        ents = []
        if klass == S.INTERVAL:
            # choose 2k boundaries b0<b1<=b2<b3 on the grid
            k = min(k, len(grid) - 1)
            bounds = []
            pos = 0
            ok = True
            for j in range(k):
                remaining = k - j
                # need at least one step per remaining interval
                smax = len(grid) - 1 - remaining
                if pos > smax:
                    ok = False
                    break
                s = rng.randint(pos, smax)
                e = rng.randint(s + 1, len(grid) - 1 - (remaining - 1))
                bounds.append((grid[s], grid[e]))
                pos = e
            for (s, e) in bounds:
                ents.append([s, e, rand_label(rng, atoms=label_atoms)])
        else:
            k = min(k, len(grid))
            for tm in sorted(rng.sample(grid, k)):
                ents.append([tm, rand_label(rng, atoms=label_atoms)])
        tiers.append({"class": klass, "name": rand_name(rng), "xmin": nums[a], "xmax": nums[b], "entries": ents})
    if unique_names:
        seen = set()
        for t in tiers:
            while mk_name(t["name"]) in seen:
                t["name"] = t["name"] + ["7"]
            seen.add(mk_name(t["name"]))
    if same:
        xmin, xmax = nums[i_lo], nums[i_hi]
    else:
        xmin = min(t["xmin"] for t in tiers)
        xmax = max(t["xmax"] for t in tiers)
    return {"xmin": xmin, "xmax": xmax, "tiers": tiers}


# ------------------------------------------------------------------------------------------------
# praatio side: build / read back (API use only)
# ------------------------------------------------------------------------------------------------


def build_tg(d):
    from praatio import textgrid
    tg = textgrid.Textgrid(d["xmin"], d["xmax"])
    for t in d["tiers"]:
        klass = textgrid.IntervalTier if t["class"] == S.INTERVAL else textgrid.PointTier
        tier = klass(t["name"], [tuple(e) for e in t["entries"]], t["xmin"], t["xmax"])
        tg.addTier(tier, reportingMode="silence")
    return tg


def content_of(tg):
    tiers = []
    for tier in tg.tiers:
        tiers.append({"class": tier.tierType, "name": tier.name, "xmin": tier.minTimestamp,
                      "xmax": tier.maxTimestamp, "entries": [tuple(e) for e in tier.entries]})
    return {"xmin": tg.minTimestamp, "xmax": tg.maxTimestamp, "tiers": tiers}


# ------------------------------------------------------------------------------------------------
# model, from the property statements
# ------------------------------------------------------------------------------------------------


def near_int_of(x):
    """the integer n such that x is within 1e-14 (relative) of n, else None   (C01)"""
    n = float(round(x))
    if abs(x - n) <= 1e-14 * max(abs(x), abs(n)):
        return n
    return None


def num_ok(expected, got, exact=False):
    try:
        if isinstance(got, bool) or not isinstance(got, (int, float)):
            return False
        if got == expected:
            return True
        if exact:
            return False
        n = near_int_of(expected)
        return n is not None and got == n
    except Exception:
        return False


def fill_blanks(entries, lo, hi):
    """C02/C04: the partition of [lo,hi] obtained by adding blank intervals in the unlabelled stretches.
    entries sorted, non-overlapping, inside [lo,hi]."""
    out = []
    prev = lo
    for (s, e, lab) in entries:
        if s > prev:
            out.append((prev, s, ""))
        out.append((s, e, lab))
        prev = e
    if hi > prev:
        out.append((prev, hi, ""))
    return out


def model_written(ref, blank, lo=None, hi=None):
    """Content a file must carry when `ref` (in-memory content) is saved without absorption:
    entries verbatim (sorted), plus blank filling of interval tiers over the file span."""
    lo = ref["xmin"] if lo is None else lo
    hi = ref["xmax"] if hi is None else hi
    tiers = []
    for t in ref["tiers"]:
        ents = sorted([tuple(e) for e in t["entries"]], key=lambda e: e[:-1])
        if blank and t["class"] == S.INTERVAL:
            ents = fill_blanks(ents, lo, hi)
        tiers.append({"class": t["class"], "name": t["name"], "xmin": t["xmin"], "xmax": t["xmax"],
                      "entries": ents})
    return {"xmin": lo, "xmax": hi, "tiers": tiers}


def drop_empty(w):
    out = {"xmin": w["xmin"], "xmax": w["xmax"], "tiers": []}
    for t in w["tiers"]:
        t2 = dict(t)
        t2["entries"] = [e for e in t["entries"] if e[-1] != ""]
        out["tiers"].append(t2)
    return out


def has_sliver(ref, blank, thr=DEFAULT_THRESHOLD, lo=None, hi=None):
    w = model_written(ref, blank, lo, hi)
    for t in w["tiers"]:
        if t["class"] == S.INTERVAL and blank:
            for (s, e, _l) in t["entries"]:
                if e - s < thr:
                    return True
    return False


def compare_content(exp, got, fmt, lenient_tier_span, exact=False):
    """-> None or (symptom, expected, observed).  exp/got are contents; `lenient_tier_span`: a tier's own
    span may be either the expected one or the file span (blank filling / overrides, see module doc of
    b_textgrid_io)."""
    if [t["name"] for t in exp["tiers"]] != [t["name"] for t in got["tiers"]]:
        return ("tier names/order differ", [t["name"] for t in exp["tiers"]], [t["name"] for t in got["tiers"]])
    if [t["class"] for t in exp["tiers"]] != [t["class"] for t in got["tiers"]]:
        return ("tier types differ", [t["class"] for t in exp["tiers"]], [t["class"] for t in got["tiers"]])
    if not (num_ok(exp["xmin"], got["xmin"], exact) and num_ok(exp["xmax"], got["xmax"], exact)):
        return ("textgrid span differs", [exp["xmin"], exp["xmax"]], [got["xmin"], got["xmax"]])
    for te, tg_ in zip(exp["tiers"], got["tiers"]):
        spans = [(te["xmin"], te["xmax"])]
        if fmt == "json":
            spans = [(exp["xmin"], exp["xmax"])]
        elif lenient_tier_span:
            spans.append((exp["xmin"], exp["xmax"]))
            spans.append((min(te["xmin"], exp["xmin"]), max(te["xmax"], exp["xmax"])))
        if not any(num_ok(a, tg_["xmin"], exact) and num_ok(b, tg_["xmax"], exact) for a, b in spans):
            return ("tier span differs", list(spans[0]), [tg_["xmin"], tg_["xmax"]])
        if len(te["entries"]) != len(tg_["entries"]):
            return ("entry count differs", [list(e) for e in te["entries"]], [list(e) for e in tg_["entries"]])
        for a, b in zip(te["entries"], tg_["entries"]):
            if len(a) != len(b):
                return ("entry shape differs", list(a), list(b))
            if a[-1] != b[-1]:
                return ("label differs", a[-1], b[-1])
        for a, b in zip(te["entries"], tg_["entries"]):
            for x, y in zip(a[:-1], b[:-1]):
                if not num_ok(x, y, exact):
                    return ("timestamp differs", repr(x), repr(y))
    return None


# ------------------------------------------------------------------------------------------------
# minimisation / cause attribution
# ------------------------------------------------------------------------------------------------

_BENIGN = {1e-17: 0.015625, 5e-05: 0.03125, 0.1 + 0.2: 0.375, 1 / 3: 0.4375,
           3.0000000000000004: 3.25, 123456789.12345678: 100.5, 1e15: 200.0}


def _map_nums(cd, f):
    cd = json.loads(json.dumps(cd))
    cd["xmin"], cd["xmax"] = f(cd["xmin"]), f(cd["xmax"])
    for t in cd["tiers"]:
        t["xmin"], t["xmax"] = f(t["xmin"]), f(t["xmax"])
        for e in t["entries"]:
            for i in range(len(e) - 1):
                e[i] = f(e[i])
    return cd


def _map_atoms(cd, f_label=None, f_name=None, klass=None):
    cd = json.loads(json.dumps(cd))
    for t in cd["tiers"]:
        if f_name:
            t["name"] = [f_name(a) for a in t["name"]]
        if f_label and (klass is None or t["class"] == klass):
            for e in t["entries"]:
                e[-1] = [f_label(a) for a in e[-1]]
    return cd


def _repl(src, dst):
    return lambda a: dst if a == src else a


def _uniq_names(cd):
    seen = set()
    for t in cd["tiers"]:
        while mk_name(t["name"]) in seen:
            t["name"] = t["name"] + ["7"]
        seen.add(mk_name(t["name"]))
    return cd


def features(cd):
    """ordered list of (feature name, neutralised cd)"""
    out = []
    nums = set([cd["xmin"], cd["xmax"]])
    for t in cd["tiers"]:
        nums.update([t["xmin"], t["xmax"]])
        for e in t["entries"]:
            nums.update(e[:-1])
    lab_atoms = set(a for t in cd["tiers"] for e in t["entries"] for a in e[-1])
    cls_atoms = {k: set(a for t in cd["tiers"] if t["class"] == k for e in t["entries"] for a in e[-1])
                 for k in (S.INTERVAL, S.POINT)}
    cls_word = ((S.INTERVAL, "interval text"), (S.POINT, "point mark"))
    name_atoms = set(a for t in cd["tiers"] for a in t["name"])

    def numfeat(name, pred):
        hit = [x for x in nums if pred(x) and x in _BENIGN]
        if hit:
            out.append((name, _map_nums(cd, lambda x: _BENIGN[x] if (x in _BENIGN and pred(x)) else x)))

    numfeat("number printed in exponent notation", lambda x: "e" in repr(float(x)) and abs(x) < 1)
    numfeat("near-integer number", lambda x: x == 3.0000000000000004)
    numfeat("large number", lambda x: x >= 1e8)
    numfeat("non-dyadic decimal", lambda x: x in (0.1 + 0.2, 1 / 3))
    for kw in KEYWORDS:
        for k, word in cls_word:
            if kw in cls_atoms[k]:
                out.append(("%s containing %s" % (word, kw), _map_atoms(cd, f_label=_repl(kw, "k"), klass=k)))
    for kw in KEYWORDS:
        if kw in name_atoms:
            out.append(("tier name containing %s" % kw, _uniq_names(_map_atoms(cd, f_name=_repl(kw, "k")))))
    for atom, nm, dst in (('"', 'double quote', 'q'), ('""', 'double quote', 'qq'), ('\n', 'newline', 'n'),
                          (' ', 'space', '_'), ('=', 'equals sign', 'e'), ('7', 'digit', 's')):
        for k, word in cls_word:
            if atom in cls_atoms[k]:
                out.append(("%s containing %s" % (word, nm), _map_atoms(cd, f_label=_repl(atom, dst), klass=k)))
    for atom, nm, dst in (('"', 'double quote', 'q'), ('""', 'double quote', 'qq'),
                          (' ', 'space', '_'), ('=', 'equals sign', 'e'), ('7', 'digit', 's')):
        if atom in name_atoms:
            out.append(("tier name containing %s" % nm, _uniq_names(_map_atoms(cd, f_name=_repl(atom, dst)))))
    for u in UNICODE_ATOMS:
        if u in lab_atoms:
            out.append(("label containing non-ASCII", _map_atoms(cd, f_label=_repl(u, "u"))))
        if u in name_atoms:
            out.append(("tier name containing non-ASCII", _uniq_names(_map_atoms(cd, f_name=_repl(u, "u")))))
    if any(mk_label(e[-1]) == "" for t in cd["tiers"] for e in t["entries"]):
        c2 = json.loads(json.dumps(cd))
        for t in c2["tiers"]:
            for e in t["entries"]:
                if mk_label(e[-1]) == "":
                    e[-1] = ["b"]
        out.append(("empty label", c2))
    return out


def structural_shrinks(cd):
    """smaller variants: drop a tier, drop an entry, shorten a label / name"""
    out = []
    if len(cd["tiers"]) > 1:
        for i in range(len(cd["tiers"])):
            c2 = json.loads(json.dumps(cd))
            del c2["tiers"][i]
            out.append(c2)
    for i, t in enumerate(cd["tiers"]):
        for j in range(len(t["entries"])):
            c2 = json.loads(json.dumps(cd))
            del c2["tiers"][i]["entries"][j]
            out.append(c2)
    for i, t in enumerate(cd["tiers"]):
        for j, e in enumerate(t["entries"]):
            if len(e[-1]) > 1:
                for k in range(len(e[-1])):
                    c2 = json.loads(json.dumps(cd))
                    del c2["tiers"][i]["entries"][j][-1][k]
                    out.append(c2)
        if len(t["name"]) > 1:
            for k in range(len(t["name"])):
                c2 = json.loads(json.dumps(cd))
                del c2["tiers"][i]["name"][k]
                if "".join(c2["tiers"][i]["name"]).strip():
                    out.append(_uniq_names(c2))
    return out


def minimise(case, evaluate, same, extra=None):
    """Greedy delta debugging on case["cd"] (other keys of `case` untouched).
    evaluate(case) -> None | (symptom, expected, observed);  same(v0, v) -> keep shrinking only while the
    failure stays of the same kind.  Returns (minimal case, its verdict, [necessary features])."""
    v0 = evaluate(case)
    cur, curv = case, v0
    budget = 120
    progress = True
    while progress and budget > 0:
        progress = False
        cands = [dict(cur, cd=c2) for c2 in structural_shrinks(cur["cd"])]
        if extra is not None:
            cands = extra(cur) + cands
        for cand in cands:
            budget -= 1
            try:
                v = evaluate(cand)
            except Exception:
                v = None
            if v is not None and same(v0, v):
                cur, curv, progress = cand, v, True
                break
    # feature neutralisation: keep a neutralisation whenever the failure survives it
    changed = True
    while changed and budget > 0:
        changed = False
        for name, c2 in features(cur["cd"]):
            budget -= 1
            cand = dict(cur, cd=c2)
            try:
                v = evaluate(cand)
            except Exception:
                v = None
            if v is not None and same(v0, v):
                cur, curv, changed = cand, v, True
                break
    necessary = [name for name, _c in features(cur["cd"])]
    return cur, curv, necessary


# ------------------------------------------------------------------------------------------------
# harness: parallel map over deterministic case streams, violation bookkeeping
# ------------------------------------------------------------------------------------------------


class Scratch:
    def __init__(self, tag):
        self.dir = os.path.join(TMPROOT, "%s_%d_%d" % (tag, os.getpid(), int(time.time() * 1000) % 100000))
        os.makedirs(self.dir, exist_ok=True)

    def path(self, name):
        return os.path.join(self.dir, name)

    def close(self):
        shutil.rmtree(self.dir, ignore_errors=True)


class Bag:
    """violations grouped by category, at most `keep` smallest per category"""

    def __init__(self, keep=5):
        self.keep = keep
        self.cat = {}
        self.count = {}

    def add(self, what, case, expected, observed):
        self.count[what] = self.count.get(what, 0) + 1
        size = len(json.dumps(case, sort_keys=True))
        lst = self.cat.setdefault(what, [])
        key = json.dumps(case, sort_keys=True)
        if any(k == key for _s, k, _v in lst):
            return
        lst.append((size, key, {"what": what, "case": case, "expected": _short(expected),
                                "observed": _short(observed)}))
        lst.sort(key=lambda x: (x[0], x[1]))
        del lst[self.keep:]

    def merge(self, other):
        for what, n in other.count.items():
            self.count[what] = self.count.get(what, 0) + n
        for what, lst in other.cat.items():
            mine = self.cat.setdefault(what, [])
            for item in lst:
                if not any(k == item[1] for _s, k, _v in mine):
                    mine.append(item)
            mine.sort(key=lambda x: (x[0], x[1]))
            del mine[self.keep:]

    def dump(self):
        return {"cat": self.cat, "count": self.count}

    @staticmethod
    def load(obj, keep=5):
        b = Bag(keep)
        b.cat = {k: [tuple(i) for i in v] for k, v in obj["cat"].items()}
        b.count = dict(obj["count"])
        return b

    def violations(self):
        out = []
        for what in sorted(self.cat):
            for _s, _k, v in self.cat[what]:
                v = dict(v)
                v["occurrences_in_category"] = self.count[what]
                out.append(v)
        return out


def _short(x, n=400):
    s = x if isinstance(x, str) else json.dumps(x, ensure_ascii=False, default=repr)
    return s if len(s) <= n else s[:n] + "...(%d chars)" % len(s)


def _worker(args):
    modname, funcname, chunk = args
    import importlib
    mod = importlib.import_module(modname)
    return getattr(mod, funcname)(chunk)


def pmap(modname, funcname, chunks, jobs):
    """run module.funcname(chunk) for every chunk; returns list of results in order"""
    args = [(modname, funcname, c) for c in chunks]
    if jobs <= 1 or len(chunks) <= 1:
        return [_worker(a) for a in args]
    ctx = multiprocessing.get_context("fork")
    with ctx.Pool(min(jobs, len(chunks))) as pool:
        return pool.map(_worker, args, chunksize=1)


def chunked(lst, n):
    n = max(1, n)
    size = (len(lst) + n - 1) // n if lst else 1
    return [lst[i:i + size] for i in range(0, len(lst), size)]
