"""R-FOLD, closed-form variant: a loop that carries scalars whose value at the start of iteration j is a
known expression of j and of the lists being traversed (e.g. `prevEnd == float(entries[j][1])`).

The sidecar contract names, per loop ordinal, `carried = {name: expression text over j}`.  Obligations:
  initiation   - the value before the loop equals the expression at j = 0;
  preservation - on every path of the body, the value at the end of iteration j equals the expression at j+1
                 (proved for a generic j inside the body exploration);
after which the body is a flatMap over the index space with the carried names bound to their expressions
(R-MAP), and after the loop each carried name has the expression's value at j = number of iterations.
An annotation that does not bind (initiation / preservation not provable) makes the obligation *unsupported*,
never a violation."""
import ast

import z3

from . import core
from .core import Unsupported, AList, is_z3, to_z3
from .values import *  # noqa
from . import loops


def _eval_expr(I, text, env, jval):
    node = ast.parse(text.strip(), mode="eval").body
    e = type(env)(env.module, parent=env, func=env.func)
    e.vars = {"j": jval}
    return I.eval(node, e)


def exec_fold_for(I, st, env, it, spec):
    carried = spec.get("carried", {})
    if not carried:
        raise Unsupported("fold rule without carried expressions")
    if loops.is_erase_loop(st) is not None:
        raise Unsupported("fold annotation on an erase loop")
    src = loops.classify_iterable(I, it)
    ctx = I.ctx
    body = st.body
    # initiation
    for name, text in carried.items():
        cur = env.lookup(name)
        want = _eval_expr(I, text, env, 0)
        ok, why = I.same_value(cur, want, "fold-init(%s)" % name)
        if not ok:
            raise Unsupported("fold annotation does not bind: '%s' is not %s before the loop" % (name, text))
    assigned = loops.assigned_names(body) | loops.assigned_names([ast.Assign(targets=[st.target], value=ast.Constant(0))])
    target_names = loops.assigned_names([ast.Assign(targets=[st.target], value=ast.Constant(0))])

    def lookup(n):
        try:
            return env.lookup(n)
        except KeyError:
            return None

    accs = loops.accumulator_names(body, lookup)
    poisoned = [n for n in assigned if n not in target_names and n not in carried]
    bad = []

    def run_body(cenv, value, recs):
        child = I.ctx
        j = child._loop_j
        for name, text in carried.items():
            cenv.vars[name] = _eval_expr(I, text, cenv, j)
        I.assign(st.target, value, cenv)
        try:
            I.exec_block(body, cenv)
        except ContinueEx:
            pass
        # preservation
        for name, text in carried.items():
            nxt = _eval_expr(I, text, cenv, j + 1)
            ok, why = I.same_value(cenv.vars[name], nxt, "fold-step(%s)" % name)
            if not ok:
                bad.append(name)

    j, sterm, results, binds = loops.explore_body(I, src, run_body, accs, poisoned, env, want_updates=assigned,
                                                 pass_index=True)
    if bad:
        raise Unsupported("fold annotation does not bind: %s not preserved by the loop body" % sorted(set(bad)))
    boxes = {n: env.lookup(n) for n in accs}
    if any(bp.kind == "break" for bp in results):
        raise Unsupported("fold loop with break")
    loops.apply_paths(I, src, sterm, j, results, boxes, env, assigned, note="@L%d" % st.lineno, binds=binds)
    n = src.length(I)
    for name, text in carried.items():
        env.vars[name] = _eval_expr(I, text, env, z3.simplify(to_z3(n)))


def exec_fold_while(I, st, env, spec):
    raise Unsupported("while loops with invariants are not supported")
