"""Sidecar contracts for the boundary adjusters of C14: dejitter.

The reference tier is represented by an object with just a `timestamps` attribute (spec.harness.Ref): dejitter uses
nothing else of it.  That `TextgridTier.timestamps` is the strictly sorted set of a tier's boundary times is proved
separately (contracts/c_queries.py), which is exactly what `ref()` assumes of the list."""
from pyvc.contracts import contract
from contracts.c_tiers import wf_interval_tier, wf_point_tier, wf_interval_clauses, IT, PT


def ref(S):
    ts = S.list("ref.timestamps", "real", pair="a < b")
    return S.obj("spec.harness.Ref", timestamps=ts)


# min(referenceTimestamps, key=...) inside the loop body: iteration skolem W(j) (pyvc/core.py sk_install)
contract(PT + ".dejitter", serves=["C14", "C05", "C13"], spec_module="spec.adjust",
         inputs=lambda S, cfg: dict(self=wf_point_tier(S, "self"), referenceTier=ref(S),
                                    maxDifference=S.real("maxDifference")),
         requires=["0 < maxDifference", "maxDifference <= 1e15"],
         spec="spec.adjust.PointTier_dejitter", frame=["self"],
         ensures=[("count", "len(result.entries) == len(self.entries)"),
                  # the adjusted times are still in time order: the constructor's sort can at most re-order points
                  # that now coincide
                  ("order", "is_sorted([snap(referenceTier.timestamps, p.time, maxDifference) for p in self.entries])")])
