"""Sidecar contracts for the time-addressed Wav operations (C16).  `frames` is an abstract list of byte values (the real
code only slices, concatenates and measures it, so a list stands for the byte string; natively the replay passes a
list of ints, which the same code accepts).  Rates and widths are enumerated, times and contents are symbolic."""
from pyvc.contracts import contract
from contracts.c_scalars import WAV, wav_obj

WCFG = {"rate": [8, 8000, 44100], "width": [1, 2, 4]}
IN_RANGE = ["0 <= startTime", "startTime <= endTime", "endTime * self.frameRate * self.sampleWidth <= len(self.frames)",
            "len(self.frames) % self.sampleWidth == 0"]


def wav(S, cfg):
    return wav_obj(S, cfg, frames=S.list("frames", "int"))


contract(WAV + ".getFrames", serves=["C16", "C17"], spec_module="spec.audio", configs=WCFG,
         inputs=lambda S, cfg: dict(self=wav(S, cfg), startTime=S.real("startTime"), endTime=S.real("endTime")),
         requires=IN_RANGE, spec="spec.audio.Wav_getFrames", frame=["self"],
         ensures=[("whole-samples", "len(result) % self.sampleWidth == 0"),
                  ("count", "len(result) == sample_offset(self, endTime) - sample_offset(self, startTime)"),
                  ("exactly-those", "forall(range(len(result)), lambda k: result[k] == self.frames[sample_offset(self, startTime) + k])")])

contract(WAV + ".deleteSegment", serves=["C16"], spec_module="spec.audio", configs=WCFG,
         inputs=lambda S, cfg: dict(self=wav(S, cfg), startTime=S.real("startTime"), endTime=S.real("endTime")),
         requires=IN_RANGE, spec="spec.audio.Wav_deleteSegment",
         ensures=[("count", "len(self.frames) == len(old['self'].frames) - (sample_offset(self, endTime) - sample_offset(self, startTime))"),
                  ("before-unchanged", "forall(range(sample_offset(self, startTime)), lambda k: self.frames[k] == old['self'].frames[k])"),
                  ("after-shifted", "forall(range(len(self.frames) - sample_offset(self, startTime)), lambda k: "
                                    "self.frames[sample_offset(self, startTime) + k] == old['self'].frames[sample_offset(self, endTime) + k])")])

INS_RANGE = ["0 <= startTime", "startTime * self.frameRate * self.sampleWidth <= len(self.frames)",
             "len(self.frames) % self.sampleWidth == 0", "len(frames) % self.sampleWidth == 0"]

contract(WAV + ".insert", serves=["C16"], spec_module="spec.audio", configs=WCFG,
         inputs=lambda S, cfg: dict(self=wav(S, cfg), startTime=S.real("startTime"), frames=S.list("ins", "int")),
         requires=INS_RANGE, spec="spec.audio.Wav_insert", frame=["frames"],
         ensures=[("count", "len(self.frames) == len(old['self'].frames) + len(frames)"),
                  ("before-unchanged", "forall(range(sample_offset(self, startTime)), lambda k: self.frames[k] == old['self'].frames[k])"),
                  ("inserted-there", "forall(range(len(frames)), lambda k: self.frames[sample_offset(self, startTime) + k] == frames[k])"),
                  ("after-shifted", "forall(range(len(old['self'].frames) - sample_offset(self, startTime)), lambda k: "
                                    "self.frames[sample_offset(self, startTime) + len(frames) + k] == old['self'].frames[sample_offset(self, startTime) + k])")])

contract(WAV + ".replaceSegment", serves=["C16"], spec_module="spec.audio", configs=WCFG,
         inputs=lambda S, cfg: dict(self=wav(S, cfg), startTime=S.real("startTime"), endTime=S.real("endTime"),
                                    frames=S.list("ins", "int")),
         requires=IN_RANGE + ["len(frames) % self.sampleWidth == 0"], spec="spec.audio.Wav_replaceSegment", frame=["frames"],
         ensures=[("count", "len(self.frames) == len(old['self'].frames) - (sample_offset(self, endTime) - sample_offset(self, startTime)) + len(frames)")])

contract(WAV + ".concatenate", serves=["C16"], spec_module="spec.audio", configs={"rate": [8000], "width": [2]},
         inputs=lambda S, cfg: dict(self=wav(S, cfg), frames=S.list("ins", "int")),
         spec="spec.audio.Wav_concatenate", frame=["frames"])

contract("spec.harness.wav_insert_then_delete", serves=["C16"], spec_module="spec.audio", modular=False, configs=WCFG,
         inputs=lambda S, cfg: dict(wav=wav(S, cfg), t=S.real("t"), frames=S.list("ins", "int")),
         requires=["0 <= t", "t * wav.frameRate * wav.sampleWidth <= len(wav.frames)",
                   "len(wav.frames) % wav.sampleWidth == 0", "len(frames) % wav.sampleWidth == 0",
                   # not exactly half way between two samples: there round-half-even sends t and t + duration to
                   # different sides (known finding KF08, exercised by the bounded check c16_wav_model)
                   "t * wav.frameRate - round(t * wav.frameRate) != 0.5", "round(t * wav.frameRate) - t * wav.frameRate != 0.5"],
         ensures=[("restored", "result == old['wav'].frames")])

# the arithmetic core of the round trip, on its own
contract("spec.harness.wav_index_shift", serves=["C16"], spec_module="spec.audio", modular=False,
         configs={"rate": [8, 8000, 44100], "width": [1, 2, 4]},
         inputs=lambda S, cfg: dict(wav=wav_obj(S, cfg), t=S.real("t"), m=S.int("m")),
         requires=["0 <= t", "0 <= m", "t <= 1e9", "m <= 1000000000",
                   "t * wav.frameRate - round(t * wav.frameRate) != 0.5", "round(t * wav.frameRate) - t * wav.frameRate != 0.5"],
         ensures=[("whole-shift", "result == m * wav.sampleWidth")])

# duration equals sample count / frame rate
contract(WAV + ".duration", serves=["C16"], spec_module="spec.audio",
         configs={"rate": [8, 8000, 44100], "width": [1, 2, 4]},
         inputs=lambda S, cfg: dict(self=wav_obj(S, cfg, frames=S.list("frames", "int"))),
         ensures=[("samples-over-rate", "result * self.frameRate * self.sampleWidth == len(self.frames)")])
