"""Sidecar contracts for praatio/data_classes/textgrid.py (C12, C13).

The number of tiers already in the textgrid is enumerated (0..MAXK); tier names, indices, spans and all tier
contents are symbolic.  This bound on the tier COUNT is stated in the evidence (the map laws themselves do not
depend on more than the tiers involved)."""
from pyvc.contracts import contract
from contracts.c_tiers import wf_interval_tier, wf_point_tier

TG = "praatio.data_classes.textgrid.Textgrid"
MAXK = 2


def textgrid(S, name, k, span="sym"):
    return _textgrid(S, name, k, span)[0]


def _textgrid(S, name, k, span="sym"):
    pairs = []
    env = {}
    for i in range(k):
        t = wf_interval_tier(S, "%s.t%d" % (name, i)) if i % 2 == 0 else wf_point_tier(S, "%s.t%d" % (name, i))
        pairs.append((S.attr(t, "name"), t))
        env["t%d" % i] = t
    for i in range(k):
        for j in range(i + 1, k):
            S.assume("t%d.name != t%d.name" % (i, j), env)
    lo = None if span is None else S.real(name + ".min")
    hi = None if span is None else S.real(name + ".max")
    if span is not None:
        # class invariant of a reachable Textgrid: its span contains every tier's span (addTier only widens)
        env.update(lo=lo, hi=hi)
        for i in range(k):
            S.assume("lo <= t%d.minTimestamp and t%d.maxTimestamp <= hi" % (i, i), env)
        S.assume("lo <= hi", env)
    return S.obj(TG, _tierDict=S.odict(pairs), minTimestamp=lo, maxTimestamp=hi), [t for _, t in pairs]


KS = list(range(MAXK + 1))

contract(
    TG + ".addTier", serves=["C12", "C13"], spec_module="spec.textgrids",
    configs={"k": KS, "tierIndex": [None, "sym"], "reportingMode": ["silence", "warning", "error", "bogus"],
             "span": ["sym", None]},
    skip_config=lambda c: c["span"] is None and c["k"] > 0,
    inputs=lambda S, cfg: dict(self=textgrid(S, "self", cfg["k"], cfg["span"]), tier=wf_interval_tier(S, "tier"),
                               tierIndex=None if cfg["tierIndex"] is None else S.int("tierIndex"),
                               reportingMode=cfg["reportingMode"]),
    spec="spec.textgrids.Textgrid_addTier",
)

contract(
    TG + ".removeTier", serves=["C12", "C13"], spec_module="spec.textgrids",
    configs={"k": KS},
    inputs=lambda S, cfg: dict(self=textgrid(S, "self", cfg["k"]), name=S.str("name")),
    spec="spec.textgrids.Textgrid_removeTier",
)

contract(
    TG + ".renameTier", serves=["C12", "C13"], spec_module="spec.textgrids",
    configs={"k": KS},
    inputs=lambda S, cfg: dict(self=textgrid(S, "self", cfg["k"]), oldName=S.str("oldName"), newName=S.str("newName")),
    spec="spec.textgrids.Textgrid_renameTier",
)

contract(
    TG + ".replaceTier", serves=["C12", "C13"], spec_module="spec.textgrids",
    configs={"k": KS, "reportingMode": ["silence", "warning", "error"]},
    inputs=lambda S, cfg: dict(self=textgrid(S, "self", cfg["k"]), name=S.str("name"),
                               newTier=wf_interval_tier(S, "newTier"), reportingMode=cfg["reportingMode"]),
    spec="spec.textgrids.Textgrid_replaceTier",
)


def valid_textgrid(S, name, k):
    """a textgrid whose tiers all share its span (validate() True), as produced by openTextgrid / crop etc."""
    tg, tiers = _textgrid(S, name, k)
    for i, t in enumerate(tiers):
        S.assume("t.minTimestamp == tg.minTimestamp and t.maxTimestamp == tg.maxTimestamp", {"t": t, "tg": tg})
    return tg


contract(
    TG + ".crop", serves=["C12", "C06", "C13"], spec_module="spec.textgrids",
    configs={"k": [0, 1, 2], "mode": ["strict", "lax", "truncated", "bogus"], "rebaseToZero": [True, False]},
    inputs=lambda S, cfg: dict(self=valid_textgrid(S, "self", cfg["k"]), cropStart=S.real("cropStart"),
                               cropEnd=S.real("cropEnd"), mode=cfg["mode"], rebaseToZero=cfg["rebaseToZero"]),
    requires=["0 <= cropStart", "cropEnd <= 1e15"],
    spec="spec.textgrids.Textgrid_crop", frame=["self"],
    ensures=[("same-names", "result.tierNames == self.tierNames"),
             ("tiers-share-span", "mode == 'lax' or forall(result.tiers, lambda t: t.minTimestamp == result.minTimestamp "
                                  "and t.maxTimestamp == result.maxTimestamp)")],
)

contract(
    TG + ".insertSpace", serves=["C12", "C08", "C13"], spec_module="spec.textgrids",
    configs={"k": [0, 1, 2], "collisionMode": ["stretch", "split", "no_change", "error", "bogus"]},
    inputs=lambda S, cfg: dict(self=valid_textgrid(S, "self", cfg["k"]), start=S.real("start"),
                               duration=S.real("duration"), collisionMode=cfg["collisionMode"]),
    requires=["0 <= start", "start <= 1e15", "0 < duration", "duration <= 1e15"],
    spec="spec.textgrids.Textgrid_insertSpace", frame=["self"],
    ensures=[("same-names", "result.tierNames == self.tierNames"),
             ("tiers-share-span", "forall(result.tiers, lambda t: t.minTimestamp == result.minTimestamp "
                                  "and t.maxTimestamp == result.maxTimestamp)")],
)

contract(
    TG + ".editTimestamps", serves=["C12", "C09", "C13"], spec_module="spec.textgrids",
    configs={"k": [0, 1, 2], "reportingMode": ["silence", "warning", "error", "bogus"]},
    inputs=lambda S, cfg: dict(self=valid_textgrid(S, "self", cfg["k"]), offset=S.real("offset"),
                               reportingMode=cfg["reportingMode"]),
    requires=["-1e15 <= offset", "offset <= 1e15"],
    spec="spec.textgrids.Textgrid_editTimestamps", frame=["self"],
    ensures=[("same-names", "result.tierNames == self.tierNames")],
)

def two_textgrids(S, ka, kb):
    a, ta = _textgrid(S, "self", ka)
    b, tb = _textgrid(S, "tg", kb)
    for g, ts in ((a, ta), (b, tb)):
        for t in ts:
            S.assume("t.minTimestamp == g.minTimestamp and t.maxTimestamp == g.maxTimestamp", {"t": t, "g": g})
    # tiers with equal names have the same tier class (tier i is an interval tier iff i is even)
    for i, x in enumerate(ta):
        for j, y in enumerate(tb):
            if i % 2 != j % 2:
                S.assume("x.name != y.name", {"x": x, "y": y})
    return a, b


def inputs(S, cfg):
    a, b = two_textgrids(S, cfg["ka"], cfg["kb"])
    return dict(self=a, tg=b, onlyMatchingNames=cfg["onlyMatchingNames"])


contract(
    TG + ".appendTextgrid", serves=["C09", "C12", "C13"], spec_module="spec.textgrids",
    configs={"ka": [0, 1, 2], "kb": [0, 1, 2], "onlyMatchingNames": [True, False]},
    inputs=inputs,
    # spans of textgrids built from non-negative times
    requires=["0 <= self.minTimestamp", "0 <= tg.minTimestamp"],
    spec="spec.textgrids.Textgrid_appendTextgrid", frame=["self", "tg"],
    ensures=[("span", "result.minTimestamp == self.minTimestamp and "
                      "result.maxTimestamp == self.maxTimestamp + tg.maxTimestamp")],
)


def distinct_textgrid(S, name, k):
    """valid textgrid whose tiers' entries are pairwise distinguishable under == (precondition of the R-ERASE rule)"""
    tg, tiers = _textgrid(S, name, k)
    for t in tiers:
        S.assume("t.minTimestamp == tg.minTimestamp and t.maxTimestamp == tg.maxTimestamp", {"t": t, "tg": tg})
        S.mark_distinct(S.attr(t, "_entries"))
    return tg


contract(
    TG + ".eraseRegion", serves=["C12", "C07", "C13"], spec_module="spec.textgrids",
    configs={"k": [0, 1, 2], "doShrink": [False, True]},
    # two tiers with shrinking repeat the one-tier argument per tier at 5 minutes of solver time: left out
    skip_config=lambda c: c["k"] == 2 and c["doShrink"],
    inputs=lambda S, cfg: dict(self=distinct_textgrid(S, "self", cfg["k"]), start=S.real("start"), end=S.real("end"),
                               doShrink=cfg["doShrink"]),
    requires=["0 <= start", "self.minTimestamp <= start", "end <= self.maxTimestamp"],
    spec="spec.textgrids.Textgrid_eraseRegion", frame=["self"],
    ensures=[("same-names", "result.tierNames == self.tierNames"),
             ("span", "result.minTimestamp == self.minTimestamp and result.maxTimestamp == "
                      "(start + (self.maxTimestamp - end) if doShrink else self.maxTimestamp)")],
)


def loose_textgrid(S, name, k):
    """neither the tiers' well-formedness nor the agreement of their spans with the textgrid's is assumed (that is
    what validate() decides); names are unique (class invariant of the tier map)"""
    pairs = []
    env = {}
    from contracts.c_queries import any_interval_tier, any_point_tier
    for i in range(k):
        t = any_interval_tier(S, "%s.t%d" % (name, i)) if i % 2 == 0 else any_point_tier(S, "%s.t%d" % (name, i))
        pairs.append((S.attr(t, "name"), t))
        env["t%d" % i] = t
    for i in range(k):
        for j in range(i + 1, k):
            S.assume("t%d.name != t%d.name" % (i, j), env)
    return S.obj(TG, _tierDict=S.odict(pairs), minTimestamp=S.real(name + ".min"), maxTimestamp=S.real(name + ".max"))


contract(TG + ".validate", serves=["C15", "C12", "C13"], spec_module="spec.textgrids",
         configs={"k": [0, 1, 2], "reportingMode": ["silence", "warning", "bogus"]},
         inputs=lambda S, cfg: dict(self=loose_textgrid(S, "self", cfg["k"]), reportingMode=cfg["reportingMode"]),
         spec="spec.textgrids.Textgrid_validate", frame=["self"])


# ---- C13: Textgrid.new() is a deep, equal copy (nothing of the original is shared with it)
contract(TG + ".new", serves=["C13", "C12"], spec_module="spec.textgrids",
         configs={"k": [0, 1, 2]},
         inputs=lambda S, cfg: dict(self=valid_textgrid(S, "self", cfg["k"])),
         frame=["self"],
         ensures=[("same-content", "result.minTimestamp == self.minTimestamp and result.maxTimestamp == self.maxTimestamp and "
                                  "forall(range(len(self.tierNames)), lambda i: result.tiers[i].entries == self.tiers[i].entries "
                                  "and result.tiers[i].name == self.tiers[i].name "
                                  "and result.tiers[i].minTimestamp == self.tiers[i].minTimestamp "
                                  "and result.tiers[i].maxTimestamp == self.tiers[i].maxTimestamp)"),
                  ("same-names", "result.tierNames == self.tierNames"),
                  ("independent", "result is not self and forall(range(len(self.tierNames)), lambda i: "
                                  "result.tiers[i] is not self.tiers[i])")])


# ---- C10 / C12: mergeTiers.  union() is not replaced by a spec (it has none): its body runs with the R-INV rule, so
# what is known of a merged tier is its class invariant, its name and its span - enough for "one tier per class, named
# after the first selected tier of the class, other tiers kept in order, spans agree"; the labelled-time content of
# the merged tiers is decided by c10_setops / c12_textgrid_model.
from contracts.c_tiers import distinct_interval_tier, strict_point_tier


def tg_of(S, kinds):
    pairs, env = [], {}
    lo, hi = S.real("self.min"), S.real("self.max")
    for i, kd in enumerate(kinds):
        mk = distinct_interval_tier if kd == "I" else strict_point_tier
        t = mk(S, "self.t%d" % i)
        pairs.append((S.attr(t, "name"), t))
        env["t%d" % i] = t
        S.assume("t.minTimestamp == lo and t.maxTimestamp == hi", {"t": t, "lo": lo, "hi": hi})
    for i in range(len(kinds)):
        for j in range(i + 1, len(kinds)):
            S.assume("t%d.name != t%d.name" % (i, j), env)
    S.assume("0 <= lo and lo <= hi", {"lo": lo, "hi": hi})
    return S.obj(TG, _tierDict=S.odict(pairs), minTimestamp=lo, maxTimestamp=hi)


def merge_inputs(S, cfg):
    tg = tg_of(S, cfg["kinds"])
    names = [S.str("self.t%d.name" % i) for i in range(len(cfg["kinds"]))]
    sel = None if cfg["selection"] == "all" else S.pylist(list(reversed(names)) if cfg["selection"] == "reversed" else names[:2])
    return dict(self=tg, tierNames=sel, preserveOtherTiers=True)


contract(TG + ".mergeTiers", serves=["C10", "C12", "C13"], spec_module="spec.textgrids",
         configs={"kinds": ["II", "PP", "IP", "IIP"], "selection": ["all", "reversed", "first-two"]},
         skip_config=lambda c: c["selection"] == "first-two" and len(c["kinds"]) < 3,
         inputs=merge_inputs,
         frame=["self"],
         ensures=[("names", "result.tierNames == merged_names(self, tierNames, preserveOtherTiers)"),
                  ("well-formed", "forall(range(len(result.tierNames)), lambda i: well_formed(result.tiers[i]))"),
                  ("span", "result.minTimestamp == self.minTimestamp and result.maxTimestamp == self.maxTimestamp")])
