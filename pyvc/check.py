"""check driver:  python3-vt -m pyvc.check <property> [--tier quick|thorough]

exit 0  every obligation of the property's contract closure discharged (known findings listed)
exit 1  VIOLATION property=<id> replay=<path>     (a failed obligation not listed as known finding)
exit 2  UNDECIDED obligation=...                  (solver gave up / construct outside the subset)
exit 3  checker error (engine self-test / canary survived / traceback)
"""
import argparse
import glob
import hashlib
import importlib
import json
import multiprocessing
import os
import sys
import time
import traceback

ROOT = os.path.dirname(os.path.dirname(os.path.abspath(__file__)))
REPO = os.environ.get("PRAATIO_REPO", "/repo")
OUT = os.path.join(ROOT, "out")

TRUSTED_BASE = [
    "A1 loop-shape reading: a Python for-loop / comprehension whose accumulators are only appended to and whose "
    "other variables are iteration-local computes flatMap(body) (pyvc/loops.py); list lemmas in lean/Lifting.lean",
    "A2 builtin models in pyvc/builtins_model.py + pyvc/listops.py (len, slicing, append/pop/insert/index, +, sorted "
    "= sorted permutation and identity on sorted input, min/max first extremal element, any/all, zip, enumerate, "
    "range, deepcopy, round half-even, int truncation, float, abs, math.floor, math.isclose, slicing with clamped "
    "bounds, list(set(xs)) = the distinct values of xs in unspecified order)",
    "A3 number<->text: Repr/float and %d/int are inverse (CPython guarantee)",
    "A4 str.strip idempotent; string order embeds into the reals",
    "A7 REAL mode: float arithmetic is treated as exact real arithmetic unless an obligation is tagged RND/FP64",
    "A8 z3 4.x/5.1 is correct; spec functions in /verif/spec are the reference semantics (written from the property text)",
    "A9 modular use of a callee's spec at a call site: the callee's explicit `requires` and the enumerated configuration "
    "are proved at the call site (otherwise the real body is executed), but the well-formedness of the receiver that "
    "the callee's input builder assumes is not re-proved there (receivers are the caller's own well-formed inputs or "
    "constructor results)",
]


def load_contracts():
    sys.path.insert(0, ROOT)
    from pyvc import contracts as pc
    for f in sorted(glob.glob(os.path.join(ROOT, "contracts", "c_*.py"))):
        importlib.import_module("contracts." + os.path.basename(f)[:-3])
    return pc


def make_interp(overrides=None):
    from pyvc import interp
    I = interp.Interp({"praatio": os.path.join(REPO, "praatio"), "spec": os.path.join(ROOT, "spec")})
    if overrides:
        I.source_overrides.update(overrides)
    return I


_DIGESTS = {}


def code_digest():
    """content hash of everything a verdict depends on: /repo sources, engine, contracts, specs"""
    if "d" not in _DIGESTS:
        h = hashlib.sha256()
        files = sorted(glob.glob(os.path.join(REPO, "praatio", "**", "*.py"), recursive=True))
        for sub in ("pyvc", "contracts", "spec"):
            files += sorted(glob.glob(os.path.join(ROOT, sub, "*.py")))
        for f in files:
            h.update(f.encode())
            h.update(open(f, "rb").read())
        _DIGESTS["d"] = h.hexdigest()
    return _DIGESTS["d"]


def cache_path(task):
    target, cfgname, overrides = task
    h = hashlib.sha256()
    h.update(code_digest().encode())
    h.update(("%s|%s" % (target, cfgname)).encode())
    for k in sorted(overrides or {}):
        h.update(k.encode())
        h.update(overrides[k].encode())
    return os.path.join(OUT, "cache", h.hexdigest()[:32] + ".json")


def run_task(task):
    """worker: verify one (contract, config); results are cached by content hash of all inputs"""
    if os.environ.get("VERIF_NO_CACHE") != "1":
        cp = cache_path(task)
        if os.path.exists(cp):
            try:
                r = json.load(open(cp))
                r["cached"] = True
                return r
            except Exception:
                pass
    r = run_task_uncached(task)
    if r["error"] is None and os.environ.get("VERIF_NO_CACHE") != "1":
        try:
            os.makedirs(os.path.join(OUT, "cache"), exist_ok=True)
            tmp = cache_path(task) + ".%d.tmp" % os.getpid()
            json.dump(r, open(tmp, "w"), default=str)
            os.replace(tmp, cache_path(task))
        except Exception:
            pass
    return r


def run_task_uncached(task):
    target, cfgname, overrides = task
    t0 = time.time()
    try:
        pc = load_contracts()
        from pyvc import core
        I = make_interp(overrides)
        I.registry = pc.REGISTRY
        c = pc.REGISTRY.contracts[target]
        obs = pc.verify_contract(I, c, only_config=cfgname)
        return {"target": target, "config": cfgname, "obligations": [o.to_json() for o in obs],
                "s": time.time() - t0, "solver_s": core.STATS["solver_s"], "paths": core.STATS["paths"],
                "error": None}
    except Exception:
        return {"target": target, "config": cfgname, "obligations": [], "s": time.time() - t0, "solver_s": 0,
                "paths": 0, "error": traceback.format_exc()}


def run_fuzz_task(task):
    """worker: native differential check (pyvc/fuzz.py) of one (contract, config); bounded, never counted as proved"""
    target, cfgname, seed, budget_s, max_samples = task
    try:
        pc = load_contracts()
        from pyvc import fuzz
        c = pc.REGISTRY.contracts[target]
        cfg = next(cf for cf in pc.config_list(c) if pc.cfg_name(cf) == cfgname)
        r = fuzz.fuzz_config(c, cfg, seed, budget_s, max_samples)
        r.update(target=target, config=cfgname, cfg=cfg)
        return r
    except Exception:
        return {"target": target, "config": cfgname, "samples": 0, "rejected": 0, "failures": [],
                "errors": [traceback.format_exc()[-500:]]}


def tasks_for(pc, prop, overrides=None, targets=None):
    out = []
    for t in pc.REGISTRY.order:
        c = pc.REGISTRY.contracts[t]
        if targets is not None:
            if t not in targets:
                continue
        elif prop not in c.serves:
            continue
        for cfg in pc.config_list(c):
            out.append((t, pc.cfg_name(cfg), overrides))
    return out


def load_known():
    p = os.path.join(ROOT, "known_findings.json")
    if not os.path.exists(p):
        return {"findings": [], "fixed": []}
    return json.load(open(p))


def matches(finding, ob):
    """a known finding about a deductive obligation must name the function (and may name configuration
    values and fragments of the obligation's detail); findings about bounded checks never match here"""
    if finding.get("bounded") or not finding.get("function"):
        return False
    if finding["function"] != ob["function"]:
        return False
    for k, v in (finding.get("config") or {}).items():
        if str(ob["config"].get(k)) != str(v):
            return False
    for frag in finding.get("detail_contains", []):
        if frag not in ob["detail"] and frag not in ob["name"]:
            return False
    return True


def source_digest():
    h = hashlib.sha256()
    for f in sorted(glob.glob(os.path.join(REPO, "praatio", "**", "*.py"), recursive=True)):
        h.update(open(f, "rb").read())
    return h.hexdigest()[:16]


def main(argv=None):
    ap = argparse.ArgumentParser()
    ap.add_argument("prop")
    ap.add_argument("--tier", default=os.environ.get("VERIF_TIER", "quick"))
    ap.add_argument("--jobs", type=int, default=int(os.environ.get("VERIF_JOBS", "16")))
    ap.add_argument("--replay")
    args = ap.parse_args(argv)
    seed = int(os.environ.get("VERIF_SEED", "0") or 0)
    t0 = time.time()
    os.makedirs(os.path.join(OUT, "replay"), exist_ok=True)
    if args.replay:
        from pyvc import replay
        return replay.main([args.replay])
    try:
        rc = check_property(args.prop, args.tier, args.jobs, seed, t0)
    except Exception:
        traceback.print_exc()
        print("CHECKER-ERROR property=%s" % args.prop)
        return 3
    return rc


def check_property(prop, tier, jobs, seed, t0):
    pc = load_contracts()
    from pyvc import props
    plan = props.PLAN.get(prop)
    if plan is None:
        print("no check registered for %s" % prop)
        return 3
    tasks = tasks_for(pc, prop)
    results = []
    with multiprocessing.Pool(min(jobs, max(1, len(tasks)))) as pool:
        for r in pool.imap_unordered(run_task, tasks, chunksize=1):
            results.append(r)
    errors = [r for r in results if r["error"]]
    obligations = [o for r in results for o in r["obligations"]]
    known = load_known()
    kf_hits = {}
    violations, undecided = [], []
    for o in obligations:
        if o["result"] == "discharged":
            continue
        hit = None
        for f in known["findings"]:
            if prop in f.get("properties", [prop]) and matches(f, o):
                hit = f
                break
        if hit is not None:
            kf_hits.setdefault(hit["id"], []).append(o)
            o["known_finding"] = hit["id"]
            continue
        if o["result"] == "failed":
            violations.append(o)
        else:
            undecided.append(o)

    # canaries: the generator must reject deliberately broken source (guard against an unsound engine)
    canary_report = []
    canary_fail = []
    if not errors:
        canary_report, canary_fail = run_canaries(pc, prop, plan, tier, jobs)

    # bounded stand-ins (never counted as proved)
    bounded = []
    b_viol = []
    if plan.get("bounded"):
        from pyvc import bounded as bnd
        for name in plan["bounded"]:
            br = bnd.run(name, prop, tier, seed, jobs)
            bounded.append(br["report"])
            for v in br["violations"]:
                hit = None
                for f in known["findings"]:
                    fb = f.get("bounded")
                    fb = [fb] if isinstance(fb, str) else (fb or [])
                    if prop in f.get("properties", [prop]) and name in fb and \
                            all(frag in v["what"] for frag in f.get("what_contains_all", [])) and \
                            (not f.get("what_contains_any") or any(frag in v["what"] for frag in f["what_contains_any"])):
                        hit = f
                        break
                if hit is not None:
                    kf_hits.setdefault(hit["id"], []).append(v)
                else:
                    b_viol.append(v)

    # native differential check of every contract against its spec (bounded; cross-check of the engine with CPython,
    # and the stand-in when a function has left the engine's subset)
    fz_budget, fz_max = (0.6, 120) if tier == "quick" else (6.0, 3000)
    ftasks = [(t, cn, seed, fz_budget, fz_max) for (t, cn, _) in tasks]
    fz_results = []
    if ftasks:
        with multiprocessing.Pool(min(jobs, len(ftasks))) as pool:
            fz_results = pool.map(run_fuzz_task, ftasks, chunksize=1)
    fz_fail = [(r, f) for r in fz_results for f in r["failures"]]
    fz_report = {"name": "native_differential", "kind": "bounded",
                 "bound": "random inputs drawn through each contract's own input builder (dyadic times k/4 and k/8 in "
                          "[-1, 10], lists of 0..5 entries, 9 label strings), rejected unless the contract's "
                          "preconditions hold; real function and spec function run by CPython and compared exactly; "
                          "%s s or %d accepted samples per (function, configuration)" % (fz_budget, fz_max),
                 "cases": sum(r["samples"] for r in fz_results), "rejected": sum(r["rejected"] for r in fz_results),
                 "configurations": len(fz_results),
                 "configurations_without_sample": [r["target"].split(".")[-1] + "[" + r["config"] + "]"
                                                   for r in fz_results if r["samples"] == 0][:20],
                 "harness_errors": [e for r in fz_results for e in r["errors"]][:5],
                 "failures": len(fz_fail)}
    if fz_results:
        bounded.append(fz_report)

    # replay of counterexamples on the real code
    from pyvc import replay
    vio_lines = []
    fz_by_cfg = {}
    for r, f in fz_fail:
        fz_by_cfg.setdefault((r["target"], r["config"]), []).append((r, f))
    for o in violations:
        path = os.path.join(OUT, "replay", "%s-%s.json" % (prop, safe(o["name"])))
        rep = replay.make_replay(prop, o, path)
        if not rep["reproduced"]:
            # the solver's model does not replay (abstraction of strings / repr): a failing input of the same
            # function and configuration found by the native differential check stands in
            alt = fz_by_cfg.get((o["function"], pc.cfg_name(o["config"])))
            if alt:
                r, f = alt[0]
                rep["failing_input_from_native_differential"] = {"seed": f["seed"], "kind": f["kind"],
                                                                 "native": f["native"]}
                rep["reproduced"] = True
                json.dump(rep, open(path, "w"), indent=1, default=str)
        suffix = "" if rep["reproduced"] else " no-failing-input-found"
        vio_lines.append("VIOLATION property=%s replay=%s obligation=%s%s" % (prop, path, o["name"], suffix))
    seen_fz = set()
    for r, f in fz_fail:
        key = (r["target"], r["config"], f["kind"], f["detail"][:60])
        if key in seen_fz:
            continue
        seen_fz.add(key)
        what = "native-differential %s[%s] %s: %s" % (r["target"].split(".")[-2] + "." + r["target"].split(".")[-1],
                                                     r["config"], f["kind"], f["detail"][:60])
        path = os.path.join(OUT, "replay", "%s-fuzz-%s.json" % (prop, safe(what)[:90]))
        json.dump({"property": prop, "kind": "fuzz", "function": r["target"], "config": r["cfg"], "seed": f["seed"],
                   "obkind": f["kind"], "detail": f["detail"], "native": f["native"], "what": what},
                  open(path, "w"), indent=1, default=str)
        vio_lines.append("VIOLATION property=%s replay=%s bounded=%s" % (prop, path, what[:160]))
    for v in b_viol:
        path = os.path.join(OUT, "replay", "%s-bounded-%s.json" % (prop, safe(v["what"])[:80]))
        json.dump({"property": prop, "kind": "bounded", **v}, open(path, "w"), indent=1, default=str)
        vio_lines.append("VIOLATION property=%s replay=%s bounded=%s" % (prop, path, v["what"][:120]))

    n_ob = len([o for o in obligations if "known_finding" not in o])
    n_dis = len([o for o in obligations if o["result"] == "discharged"])
    level = plan["level"]
    functions = sorted(set(o["function"] for o in obligations))
    samples = [{"obligation": o["name"], "detail": o["detail"][:200]} for o in obligations[:3]]
    ev = {
        "property_id": prop, "tier": tier, "seed": seed, "level": level,
        "coverage": {
            "obligations": n_ob, "discharged": n_dis,
            "checker_cmd": "python3-vt -m pyvc.check %s --tier %s" % (prop, tier),
            "trusted_base": TRUSTED_BASE + plan.get("trusted_extra", []),
            "functions_under_contract": functions,
            "back_end": "z3 %s (python API), verification conditions generated by pyvc from /repo's AST" % z3_version(),
            "solver_s": round(sum(r["solver_s"] for r in results), 2),
            "paths_explored": sum(r["paths"] for r in results),
            "verdicts_reused_from_content_hash_cache": len([r for r in results if r.get("cached")]),
            "per_function": per_function(results),
            "known_findings": [{"id": k, "obligations": [x.get("name", x.get("what")) for x in v]} for k, v in kf_hits.items()],
            "undecided": [o["name"] for o in undecided],
            "canaries": canary_report,
            "bounded": bounded,
            "samples": samples,
            "explanation": plan["explanation"],
            "source_digest": source_digest(),
            "evaluations": max(1, n_ob + sum(b.get("cases", 0) for b in bounded)),
            "distinct_nontrivial": max(2, n_ob),
            "rule": "one obligation per feasible path of each real function under contract (x enumerated "
                    "configuration); distinct by (function, configuration, path); bounded cases are listed separately",
        },
        "assumptions": TRUSTED_BASE + plan.get("trusted_extra", []),
        "wall_s": round(time.time() - t0, 2),
        "violations": len(violations) + len(b_viol) + len(fz_fail),
    }
    evdir = os.environ.get("VERIF_EVIDENCE_DIR") or os.path.join(ROOT, "evidence")
    os.makedirs(evdir, exist_ok=True)
    json.dump(ev, open(os.path.join(evdir, "%s.json" % prop), "w"), indent=1, default=str)

    for k, v in kf_hits.items():
        f = next(x for x in known["findings"] if x["id"] == k)
        print("KNOWN-FINDING: property=%s %s" % (prop, f["text"]))
    print("%s: %d obligations, %d discharged, %d known-finding, %d failed, %d undecided; %d bounded checks; %.1fs"
          % (prop, len(obligations), n_dis, sum(len(v) for v in kf_hits.values()), len(violations), len(undecided),
             len(bounded), time.time() - t0))
    if vio_lines:
        # a violation is reported even if some other obligation made the checker fail (e.g. a change that takes a
        # function outside the engine's subset): the failing inputs stand on their own
        for e in errors:
            print("CHECKER-ERROR %s[%s]\n%s" % (e["target"], e["config"], e["error"][-600:]))
        for l in vio_lines:
            print(l)
        return 1
    if errors:
        for e in errors:
            print("CHECKER-ERROR %s[%s]\n%s" % (e["target"], e["config"], e["error"]))
        return 3
    if canary_fail:
        for c in canary_fail:
            print("CHECKER-ERROR canary survived: %s" % c)
        return 3
    if undecided:
        for o in undecided:
            print("UNDECIDED obligation=%s reason=%s" % (o["name"], o["detail"][:200]))
        return 2
    if len(obligations) == 0 and not bounded:
        print("CHECKER-ERROR zero obligations generated")
        return 3
    return 0


def per_function(results):
    agg = {}
    for r in results:
        a = agg.setdefault(r["target"], {"obligations": 0, "discharged": 0, "s": 0.0, "solver_s": 0.0})
        a["obligations"] += len(r["obligations"])
        a["discharged"] += len([o for o in r["obligations"] if o["result"] == "discharged"])
        a["s"] = round(a["s"] + r["s"], 2)
        a["solver_s"] = round(a["solver_s"] + r["solver_s"], 2)
    return agg


def z3_version():
    import z3
    return z3.get_version_string()


def safe(s):
    return "".join(ch if ch.isalnum() or ch in "-_." else "_" for ch in s)[:120]


def run_canaries(pc, prop, plan, tier, jobs):
    """apply stored source rewrites in memory; each must make some obligation of the named contract fail"""
    from pyvc import props
    cans = [c for c in props.CANARIES if prop in c["props"]]
    if tier == "quick":
        cans = cans[:plan.get("quick_canaries", 3)]
    report, failed = [], []
    tasks = []
    for c in cans:
        path = os.path.join(REPO, c["file"])
        src = open(path).read()
        if c["old"] not in src:
            report.append({"canary": c["name"], "result": "not-applicable (source text changed)"})
            continue
        over = {path: src.replace(c["old"], c["new"], 1)}
        for t in tasks_for(pc, prop, overrides=over, targets=[c["target"]]):
            if c.get("config") and t[1] not in c["config"]:
                continue
            tasks.append((c["name"], t))
    if not tasks:
        return report, failed
    with multiprocessing.Pool(min(jobs, len(tasks))) as pool:
        res = pool.map(run_task, [t for _, t in tasks], chunksize=1)
    by = {}
    for (name, _), r in zip(tasks, res):
        by.setdefault(name, []).append(r)
    for name, rs in by.items():
        obs = [o for r in rs for o in r["obligations"]]
        killed = any(o["result"] == "failed" for o in obs)
        err = [r["error"] for r in rs if r["error"]]
        # the dangerous outcome is a deliberately broken body whose obligations are all *discharged* (an unsound
        # engine): that is fatal.  A rewrite that only comes out undecided / unsupported (e.g. a solver time-out on
        # a loaded machine) proves nothing either way and is reported as inconclusive, not as a checker error.
        if killed:
            res = "killed"
        elif err:
            res = "error"
        elif obs and all(o["result"] == "discharged" for o in obs):
            res = "SURVIVED"
        else:
            res = "inconclusive (%s)" % ", ".join(sorted(set(o["result"] for o in obs if o["result"] != "discharged")))
        report.append({"canary": name, "result": res})
        if res in ("SURVIVED", "error"):
            failed.append(name + (" (error: %s)" % err[0][-300:] if err else ""))
    return report, failed


if __name__ == "__main__":
    sys.exit(main())
