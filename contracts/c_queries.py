"""Sidecar contracts for the queries of C15: find (exact / substring), getNonEntries."""
from pyvc.contracts import contract
from contracts.c_tiers import wf_interval_tier, wf_point_tier, IT, PT

TT = "praatio.data_classes.textgrid_tier.TextgridTier"


def any_tier(S, cfg, name="self"):
    return wf_interval_tier(S, name) if cfg["tier"] == "interval" else wf_point_tier(S, name)


# usingRE=True (re.findall) is outside the engine's string model: decided by the bounded check c15_queries
contract(TT + ".find", serves=["C15", "C13"], spec_module="spec.queries",
         configs={"tier": ["interval", "point"], "substrMatchFlag": [False, True]},
         inputs=lambda S, cfg: dict(self=any_tier(S, cfg), matchLabel=S.str("matchLabel"),
                                    substrMatchFlag=cfg["substrMatchFlag"], usingRE=False),
         spec="spec.queries.find", frame=["self"])

# "on a tier with entries" is part of the property statement; 0 <= minTimestamp is the class invariant of a
# tier built from non-negative times
contract(IT + ".getNonEntries", serves=["C15", "C13"], spec_module="spec.queries",
         inputs=lambda S, cfg: dict(self=wf_interval_tier(S, "self")),
         requires=["len(self._entries) > 0", "0 <= self.minTimestamp"],
         spec="spec.queries.getNonEntries", frame=["self"], engine_opts={"touch": True, "successor": True},
         ensures=[("positive-length", "forall(result, lambda g: g.start < g.end and g.label == '')"),
                  ("in-span", "forall(result, lambda g: 0 <= g.start and g.end <= self.maxTimestamp)"),
                  ("ordered", "adjacent(result, lambda a, b: a.end <= b.start)")])

# ---- validate(): non-raising modes.  The loop carries `previous...` (closed form: the preceding entry) and the flag
# `isValid` (flag rule of pyvc/loops.py: False after the loop iff some iteration takes a path that sets it).
# reportingMode='error' raises at the first problem found, with a class that depends on the order of the checks: not
# part of the property ("returns False exactly when ...") and left to the bounded check.


def any_interval_tier(S, name="self"):
    """NOT assumed well-formed: validate() is what decides that"""
    ents = S.list(name + ".entries", "Interval")
    return S.obj(IT, name=S.str(name + ".name"), _entries=ents, minTimestamp=S.real(name + ".min"),
                 maxTimestamp=S.real(name + ".max"),
                 errorReporter=S.I.get_function("praatio.utilities.utils.reportWarning"))


def any_point_tier(S, name="self"):
    ents = S.list(name + ".entries", "Point")
    return S.obj(PT, name=S.str(name + ".name"), _entries=ents, minTimestamp=S.real(name + ".min"),
                 maxTimestamp=S.real(name + ".max"),
                 errorReporter=S.I.get_function("praatio.utilities.utils.reportWarning"))


contract(IT + ".validate", serves=["C15", "C05", "C13"], spec_module="spec.queries",
         configs={"reportingMode": ["silence", "warning", "bogus"]},
         inputs=lambda S, cfg: dict(self=any_interval_tier(S), reportingMode=cfg["reportingMode"]),
         loops={"loop#1": {"carried": {"previousInterval": "(self.entries[j - 1] if j > 0 else None)"}}},
         spec="spec.queries.IntervalTier_validate", frame=["self"], engine_opts={"touch": True, "successor": True})

contract(PT + ".validate", serves=["C15", "C05", "C13"], spec_module="spec.queries",
         configs={"reportingMode": ["silence", "warning", "bogus"]},
         inputs=lambda S, cfg: dict(self=any_point_tier(S), reportingMode=cfg["reportingMode"]),
         loops={"loop#1": {"carried": {"previousPoint": "(self.entries[j - 1] if j > 0 else None)"}}},
         spec="spec.queries.PointTier_validate", frame=["self"], engine_opts={"touch": True, "successor": True})

# ---- timestamps: the strictly sorted set of all boundary times.  list(set(xs)) is the Dedup term of pyvc/core.py
# (distinct values of xs in unspecified order); the two inclusions are proof-only (`subset`): if they stop being
# provable the obligation is *unsupported*, and the native differential check decides
contract(PT + ".timestamps", serves=["C15", "C13"], spec_module="spec.queries",
         inputs=lambda S, cfg: dict(self=wf_point_tier(S, "self")),
         frame=["self"], engine_opts={"sorted_forward": True},
         ensures=[("strictly-sorted", "adjacent(result, lambda a, b: a < b)"),
                  ("only-boundaries", "subset(result, point_times(self))"),
                  ("all-boundaries", "subset(point_times(self), result)")])
contract(IT + ".timestamps", serves=["C15", "C13"], spec_module="spec.queries",
         inputs=lambda S, cfg: dict(self=wf_interval_tier(S, "self")),
         frame=["self"], engine_opts={"sorted_forward": True},
         ensures=[("strictly-sorted", "adjacent(result, lambda a, b: a < b)"),
                  ("only-boundaries", "subset(result, interval_boundaries(self))"),
                  ("all-boundaries", "subset(interval_boundaries(self), result)")])
